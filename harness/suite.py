"""B2 driver "the repository's own test-suite": pytest runs with the verif_recorder plugin (from outside the package), every
select() the 381 tests make is recorded (projected tree, decompiled selector, result) and validated by TLC against CssDecl.
Each event is owned by exactly one property (by the selector kinds it uses); a check validates the events it owns."""
from __future__ import annotations
import json
import os
import subprocess
import tempfile

from . import common, trace

STATE = {'checked', 'default', 'indeterminate', 'disabled', 'enabled', 'required', 'optional', 'read-only', 'read-write',
         'placeholder-shown', 'link', 'any-link', 'defined'}


def kinds_of(ast, acc=None):
    acc = set() if acc is None else acc
    for cx in ast:
        for comp in cx['cs']:
            for s in comp:
                acc.add(s['k'])
                for key in ('args', 'of'):
                    if key in s and s[key]:
                        if s['k'] == 'has':
                            kinds_of([a['cx'] for a in s['args']], acc)
                        else:
                            kinds_of(s[key], acc)
    return acc


def owner(ev):
    ks = kinds_of(ev['sel'])
    if ks & {'in-range', 'out-of-range'}:
        return 'C18-drift'
    if 'dir' in ks:
        return 'C17-drift'
    if ks & STATE:
        return 'C17'
    if 'lang' in ks:
        return 'C13'
    if 'contains' in ks:
        return 'C19'
    if 'nth' in ks:
        return 'C02'
    return 'C01'


def _ungated(ev):
    """zones the properties leave open: odd (non-string) attribute values, selector names containing ':' (whole-key match)"""
    for at in ev['doc']['attrs']:
        for a in at:
            if a.get('oddproj'):
                return 'odd attribute value'

    def has_colon(ast):
        for cx in ast:
            for comp in cx['cs']:
                for s in comp:
                    if s['k'] == 'attr' and 58 in s['name']:
                        return True
                    for key in ('args', 'of'):
                        if s.get(key):
                            sub = [a['cx'] for a in s['args']] if s['k'] == 'has' else s[key]
                            if has_colon(sub):
                                return True
        return False
    if has_colon(ev['sel']):
        return 'attribute name containing a colon'
    return None


def record():
    tmp = tempfile.mkdtemp(prefix='verif_suite_')
    out = os.path.join(tmp, 'suite.ndjson')
    env = dict(os.environ, PYTHONPATH=os.path.join(common.VERIF, 'harness') + ':' + common.VERIF + ':' + common.REPO, VERIF_RECORD_FILE=out)
    env.pop(common.GUARD, None)
    p = subprocess.run(['/venv/bin/python', '-m', 'pytest', '-q', '-p', 'no:cacheprovider', '-p', 'verif_recorder', '--timeout=600'],
                       cwd=common.REPO, env=env, capture_output=True, text=True)
    lines = []
    meta = {}
    if os.path.exists(out):
        lines = [l.rstrip('\n') for l in open(out)]
        if os.path.exists(out + '.meta'):
            meta = json.load(open(out + '.meta'))
    for f in os.listdir(tmp):
        os.remove(os.path.join(tmp, f))
    os.rmdir(tmp)
    return lines, meta, p.stdout.strip().splitlines()[-1] if p.stdout.strip() else ''


def part(chk, pid):
    """validate the suite events owned by property pid"""
    lines, meta, tail = record()
    if not lines:
        # (a tree whose own suite does not run is not this property's business; say so in the evidence)
        chk.notes['suite_corpus'] = {'pytest': tail, 'events': 0}
        return
    mine, stats = [], {}
    for l in lines:
        ev = json.loads(l)
        o = owner(ev)
        stats[o] = stats.get(o, 0) + 1
        if o == pid:
            u = _ungated(ev)
            if u:
                stats['ungated: ' + u] = stats.get('ungated: ' + u, 0) + 1
                continue
            mine.append(l)
    chk.notes['suite_corpus'] = {'pytest': tail, 'events': len(lines), 'owners': stats, 'validated_here': len(mine), 'recorder': meta}
    if mine:
        trace.validate(chk, mine, 'Trace_Select', 'suite-corpus', batch=300)
