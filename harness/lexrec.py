"""Records the token stream the real tokenizer yields for a text (printed by the library itself under flags=DEBUG)."""
from __future__ import annotations
import contextlib
import io
import re
import warnings

_RE_TOK = re.compile(r"^TOKEN: '([a-z_]+)' --> (.*) at position (\d+)$")
_RE_POS = re.compile(r'(?:Invalid character .* position|Malformed (?:attribute|class|id|pseudo-class) selector at position) (\d+)')


def record(sv, text):
    """-> dict(toks=[{k,a,b}], lexerr=1-based index or 0, complete=bool, outcome=str)"""
    out = io.StringIO()
    outcome = 'ok'
    lexerr = 0
    with contextlib.redirect_stdout(out), warnings.catch_warnings():
        warnings.simplefilter('ignore')
        try:
            from soupsieve import css_parser as cp
            cp._cached_css_compile.__wrapped__(text, None, None, sv.DEBUG)
        except sv.SelectorSyntaxError as e:
            outcome = 'SelectorSyntaxError'
            m = _RE_POS.search(str(e).split('\n')[0])
            if m:
                lexerr = int(m.group(1)) + 1
        except NotImplementedError:
            outcome = 'NotImplementedError'
        except Exception as e:
            outcome = type(e).__name__
    toks = []
    lines = out.getvalue().split('\n')
    # only the outermost "## PARSING" block (pre-compiled lists are parsed at import, custom selectors are not used here)
    complete = False
    n = 0
    i = 0
    while i < len(lines):
        ln = lines[i]
        if ln.startswith('## PARSING'):
            n += 1
        if ln.startswith('TOKEN: '):
            # the token text is a repr and may contain newlines escaped; repr is one line
            m = _RE_TOK.match(ln)
            if m:
                txt = eval(m.group(2))   # repr of a str printed by the library
                a = int(m.group(3)) + 1
                toks.append({'k': m.group(1), 'a': a, 'b': a + len(txt)})
        if ln.startswith('## END PARSING'):
            complete = True
        i += 1
    # the pattern has NUL replaced by U+FFFD before tokenizing: positions are unaffected
    return {'toks': toks, 'lexerr': lexerr, 'complete': complete and outcome != 'SelectorSyntaxError' or (complete and lexerr == 0), 'outcome': outcome}
