"""B2: run query events on the real code, record them as ndjson, validate with TLC (Trace_*.tla)."""
from __future__ import annotations
import json
import multiprocessing as mp
import os
import re
import tempfile
import warnings

from . import common, dom, sel as selmod, tlc


SPELL_SEED = None


def _run_events(args):
    """worker: build documents, run the real select, return ndjson lines"""
    jobs, = args
    warnings.simplefilter('ignore')
    sv, bs4 = common.import_repo()
    lines = []
    for (eid, d, asts, targets, nsmap) in jobs:
        container, nodes = dom.build(d, bs4)
        idmap = dom.ids_of(nodes)
        root = min([i + 1 for i, (p, k) in enumerate(zip(d['parent'], d['kind'])) if p == 0 and k == 'e'] or [0])
        for j, ast in enumerate(asts):
            if SPELL_SEED is not None:       # the text handed to the real select is a random respelling of the AST (harness/sel.py)
                import random
                import zlib
                selmod.SPELL = random.Random(zlib.crc32(('%s|%s|%d' % (SPELL_SEED, eid, j)).encode()))
            try:
                css = selmod.selector_list(ast)
            finally:
                selmod.SPELL = None
            for target in targets:
                if target == 0:
                    tnode = container
                    scope = root
                    tgt = 0 if d['top'] == 'doc' else 1
                else:
                    tnode = nodes[target]
                    scope = target
                    tgt = target
                ev = {'id': '%s.%d.%d' % (eid, j, target), 'doc': d, 'sel': ast,
                      'nsmap': [{'p': common.cps(p), 'u': common.cps(u)} for p, u in (nsmap or {}).items()],
                      'scope': scope, 'target': tgt, 'css': css, 'text': common.cps(css)}
                try:
                    r = common.guard(lambda: sv.select(css, tnode, namespaces=nsmap), 30)      # a call that never returns is an outcome, not a hung check
                    ev['res'] = [idmap.get(id(t), -1) for t in r]
                except common.CallTimeout:
                    ev['res'] = [-3]
                    ev['exc'] = 'no return within 30 s'
                except Exception as e:
                    ev['res'] = [-2]
                    ev['exc'] = '%s: %s' % (type(e).__name__, str(e).split('\n')[0])
                lines.append(json.dumps(ev))
    return lines


def record_select(jobs, procs=16):
    """jobs: list of (event id, abstract doc, [selector list AST], [targets], nsmap dict or None)"""
    ctx = mp.get_context('fork')
    chunks = [jobs[i::procs] for i in range(procs)]
    with ctx.Pool(procs) as pool:
        outs = pool.map(_run_events, [(c,) for c in chunks if c])
    lines = [l for o in outs for l in o]
    return lines


_RE_REJECT = re.compile(r'^<<"REJECT", "([^"]*)"(?:, (.*))?>>$')


def validate(chk, lines, module='Trace_Select', label='trace', workers=1, batch=4000, timeout=3600):
    """Split the trace into batches, run TLC on each, collect REJECT verdicts."""
    events = {}
    for l in lines:
        e = json.loads(l)
        events[e['id']] = e
    tmpd = tempfile.mkdtemp(prefix='verif_trace_')
    rejected = []
    try:
        files = []
        for b in range(0, len(lines), batch):
            path = os.path.join(tmpd, 't%d.ndjson' % b)
            with open(path, 'w') as f:
                f.write('\n'.join(lines[b:b + batch]) + '\n')
            files.append((path, len(lines[b:b + batch])))
        # TLC instances are single-worker (trace order); run several JVMs side by side
        ctx = mp.get_context('fork')
        with ctx.Pool(min(8, max(1, len(files)))) as pool:
            results = pool.map(_validate_one, [(module, p, n, timeout) for p, n in files])
        for (ok, distinct, generated, rej, err) in results:
            if err:
                chk.machinery('%s: %s' % (label, err))
                continue
            chk.coverage['states'] += distinct
            chk.coverage['transitions'] += generated
            rejected += rej
    finally:
        for f in os.listdir(tmpd):
            os.remove(os.path.join(tmpd, f))
        os.rmdir(tmpd)
    chk.count(len(lines), traces=len(lines))
    for rid, exp in rejected:
        e = events.get(rid, {})
        key = '%s|%s|%s' % (label, e.get('css'), rid)
        chk.violation(key, '%s: recorded select(%r) = %r%s is not what the specification admits (%s)' % (
            label, e.get('css'), e.get('res'), (' [' + e['exc'] + ']') if 'exc' in e else '', exp),
            {'cfg': label, 'selector': e.get('css'), 'event': e, 'spec_expected': exp})
    return rejected


def _validate_one(args):
    module, path, n, timeout = args
    try:
        res = tlc.run(module, workers=1, env={'TRACE_FILE': path}, timeout=timeout)
    except tlc.TLCError as e:
        return False, 0, 0, [], str(e)[-1500:]
    rej = []
    for t in res.tuples:
        m = _RE_REJECT.match(t)
        if m:
            rej.append((m.group(1), m.group(2)))
    if res.violation:
        return False, res.distinct, res.generated, rej, 'trace not fully consumed / TLC error: %s' % res.violation
    if res.distinct != n + 1:
        return False, res.distinct, res.generated, rej, 'expected %d states, got %d' % (n + 1, res.distinct)
    return True, res.distinct, res.generated, rej, None
