"""Concretisation of abstract documents (spec/Dom.tla records, as JSON) into real bs4 trees built
through the bs4 API, and the projection of real trees back to abstract documents."""
from __future__ import annotations
from .common import st, cps

XHTML = 'http://www.w3.org/1999/xhtml'


def build(d, bs4, name_map=None):
    """d: JSON of a Dom.tla record.  Returns (container, nodes) where nodes[i] is the bs4 node with
    id i (nodes[0] is the BeautifulSoup object for top='doc', None for a detached fragment)."""
    xml = bool(d.get('xml'))
    soup = bs4.BeautifulSoup('', 'xml' if xml else 'html.parser')
    nodes = [soup if d['top'] == 'doc' else None]
    n = len(d['parent'])
    for i in range(n):
        kind = d['kind'][i]
        if kind == 'e':
            name = st(d['name'][i])
            if name_map:
                name = name_map.get(name, name)
            ns = st(d['ns'][i]) if d['ns'][i] else None
            pfx = st(d['pfx'][i]) if d['pfx'][i] else None
            node = soup.new_tag(name, namespace=ns, nsprefix=pfx)
            for a in d['attrs'][i]:
                key = st(a['k'])
                if a.get('ns'):
                    local = st(a['local'])
                    p = key[:-len(local) - 1] if key.endswith(':' + local) else None
                    key = bs4.element.NamespacedAttribute(p, local, st(a['ns']))
                if a.get('odd'):
                    val = odd_value(a['odd'])
                else:
                    val = st(a['v'])
                    if a.get('list'):
                        val = val.split(' ')
                node.attrs[key] = val
        else:
            text = st(d['text'][i])
            cls = {'t': bs4.element.NavigableString, 'c': bs4.Comment, 'cd': bs4.CData,
                   'pi': bs4.ProcessingInstruction, 'dt': bs4.Doctype, 'dc': bs4.Declaration}[kind]
            node = cls(text)
        p = d['parent'][i]
        parent = nodes[p]
        if parent is not None:
            parent.append(node)
        nodes.append(node)
    return (soup if d['top'] == 'doc' else nodes[1] if n else None), nodes


def odd_value(tag):
    return {'none': None, 'int': 5, 'float': 1.5, 'bytes': b'x', 'badbytes': b'\xff\xfex', 'nested': ['x', ['y', 'z']],
            'intlist': [1, 2], 'bool': True, 'tuple': ('x', 'y')}[tag]


def ids_of(nodes):
    """map id(node) -> abstract id"""
    return {id(n): i for i, n in enumerate(nodes) if n is not None}


def project(container, bs4):
    """Real tree -> abstract document (JSON shape of Dom.tla) with nodes listed in pre-order.
    Returns (doc, nodes)."""
    is_doc = isinstance(container, bs4.BeautifulSoup)
    d = {'parent': [], 'kind': [], 'name': [], 'ns': [], 'pfx': [], 'attrs': [], 'text': [],
         'top': 'doc' if is_doc else 'frag', 'xml': bool(container._is_xml)}
    nodes = [container if is_doc else None]

    def add(node, p):
        idx = len(d['parent']) + 1
        d['parent'].append(p)
        if isinstance(node, bs4.Tag):
            d['kind'].append('e')
            d['name'].append(cps(node.name))
            d['ns'].append(cps(node.namespace) if node.namespace else [])
            d['pfx'].append(cps(node.prefix) if node.prefix else [])
            at = []
            for k, v in node.attrs.items():
                ns = getattr(k, 'namespace', None)
                local = getattr(k, 'name', None)
                lst = isinstance(v, (list, tuple))
                odd = False
                if lst:
                    odd = not all(isinstance(x, str) for x in v)
                    v = ' '.join(str(x) for x in v)
                elif not isinstance(v, str):
                    odd = True
                    v = '' if v is None else str(v)
                rec = {'k': cps(str(k)), 'ns': cps(ns) if ns else [], 'local': cps(local if local else str(k)),
                       'v': cps(v), 'list': lst}
                if odd:
                    rec['oddproj'] = True
                at.append(rec)
            d['attrs'].append(at)
            d['text'].append([])
            nodes.append(node)
            for c in node.contents:
                add(c, idx)
        else:
            if isinstance(node, bs4.Comment):
                k = 'c'
            elif isinstance(node, bs4.CData):
                k = 'cd'
            elif isinstance(node, bs4.ProcessingInstruction):
                k = 'pi'
            elif isinstance(node, bs4.Doctype):
                k = 'dt'
            elif isinstance(node, bs4.Declaration):
                k = 'dc'
            else:
                k = 't'
            d['kind'].append(k)
            d['name'].append([])
            d['ns'].append([])
            d['pfx'].append([])
            d['attrs'].append([])
            d['text'].append(cps(str(node)))
            nodes.append(node)

    if is_doc:
        for c in container.contents:
            add(c, 0)
    else:
        add(container, 0)
    return d, nodes


def mask_to_ids(m):
    out = []
    i = 1
    while m:
        if m & 1:
            out.append(i)
        m >>= 1
        i += 1
    return out
