"""Shared plumbing: repo import, seeds, evidence files, replay files, known findings, verdicts."""
from __future__ import annotations
import hashlib
import json
import os
import sys
import time

VERIF = os.path.dirname(os.path.dirname(os.path.abspath(__file__)))
REPO = os.environ.get('VERIF_REPO', '/repo')
SEED = int(os.environ.get('VERIF_SEED', '0') or 0)
GUARD = 'SOUPSIEVE_VERIF'

os.environ.setdefault('PYTHONHASHSEED', '0')


def import_repo():
    """Import soupsieve from the working tree under test (always before bs4: see F16)."""
    if REPO not in sys.path:
        sys.path.insert(0, REPO)
    import soupsieve  # noqa
    import bs4  # noqa
    src = os.path.dirname(os.path.abspath(soupsieve.__file__))
    if os.path.realpath(src) != os.path.realpath(os.path.join(REPO, 'soupsieve')):
        raise RuntimeError('soupsieve imported from %s, not from %s' % (src, REPO))
    return soupsieve, bs4


class Check:
    """One run of one property's check; collects cases, violations, evidence."""

    def __init__(self, pid, tier, level='model_checking'):
        self.pid = pid
        self.tier = tier
        self.level = level
        self.t0 = time.time()
        self.violations = []       # list of dict(key, what, case)
        self.known_hits = {}       # key -> count
        self.coverage = {'states': 0, 'transitions': 0, 'traces_validated_against_impl': 0,
                         'samples': [], 'evaluations': 0, 'distinct_nontrivial': 0}
        self.assumptions = []
        self.drift = []
        self.notes = {}
        self._distinct = set()
        self._extra_distinct = 0
        self.rule = ('cases are the states / behaviours TLC enumerates from the property\'s MC_*.tla configurations plus seeded '
                     'random cases recorded from the implementation; distinct = distinct TLC states x pool entries or distinct '
                     'recorded events; non-trivial = the predicted/observed answer is non-empty')
        self.known = load_known(pid)
        self.machinery_errors = []

    # -- counting ---------------------------------------------------------
    def add_tlc(self, res, name=None):
        self.coverage['states'] += res.distinct
        self.coverage['transitions'] += res.generated
        if name:
            self.notes.setdefault('tlc_runs', []).append(
                {'cfg': name, 'distinct': res.distinct, 'generated': res.generated, 'depth': res.depth,
                 'wall_s': round(res.wall, 2), 'coverage': {k: list(v) for k, v in res.coverage.items()}})

    def count(self, n=1, traces=0):
        self.coverage['evaluations'] += n
        self.coverage['traces_validated_against_impl'] += traces

    def nontrivial(self, key):
        """Register a distinct non-trivial case (by a hashable key)."""
        if not isinstance(key, (str, bytes)):
            key = json.dumps(key, sort_keys=True, default=str)
        self._distinct.add(hashlib.blake2b(key.encode() if isinstance(key, str) else key, digest_size=8).digest())

    def add_distinct(self, n):
        """n further cases that are distinct by construction (distinct TLC states x distinct pool entries)."""
        self._extra_distinct += n

    def sample(self, case, cap=8):
        if len(self.coverage['samples']) < cap:
            self.coverage['samples'].append(case)

    # -- verdicts ---------------------------------------------------------
    def violation(self, key, what, case):
        """Report a failing case. `key` is the specific identifier matched against known findings."""
        for k in self.known:
            if k['status'] == 'open' and k['key'] == key:
                self.known_hits[key] = self.known_hits.get(key, 0) + 1
                return
        self.violations.append({'key': key, 'what': what, 'case': case})

    def machinery(self, msg):
        self.machinery_errors.append(msg)

    def finish(self):
        wall = time.time() - self.t0
        cov = self.coverage
        cov['distinct_nontrivial'] = len(self._distinct) + self._extra_distinct
        cov.setdefault('rule', self.rule)
        if self.drift:
            cov['drift'] = self.drift[:20]
            cov['drift_count'] = len(self.drift)
        cov.update(self.notes)
        ev = {
            'property_id': self.pid,
            'tier': self.tier,
            'seed': SEED,
            'level': self.level,
            'coverage': cov,
            'assumptions': self.assumptions,
            'wall_s': round(wall, 2),
            'violations': len(self.violations),
        }
        evdir = os.environ.get('VERIF_EVIDENCE_DIR') or os.path.join(VERIF, 'evidence')
        os.makedirs(evdir, exist_ok=True)
        with open(os.path.join(evdir, self.pid + '.json'), 'w') as f:
            json.dump(ev, f, indent=1, default=str)
        for key, n in sorted(self.known_hits.items()):
            what = [k['what'] for k in self.known if k['key'] == key][0]
            print('KNOWN-FINDING: property=%s %s [%s] (%d cases)' % (self.pid, what, key, n))
        if self.machinery_errors:
            for m in self.machinery_errors[:10]:
                print('MACHINERY-ERROR: property=%s %s' % (self.pid, m))
            if not self.violations:
                return 2
        if self.violations:
            rdir = os.path.join(os.environ.get('VERIF_REPLAY_DIR') or os.path.join(VERIF, 'replays'), self.pid)
            os.makedirs(rdir, exist_ok=True)
            seen = {}
            for v in self.violations:
                seen.setdefault(v['key'], v)
            for n, (key, v) in enumerate(sorted(seen.items())):
                if n >= 25:
                    break
                h = hashlib.blake2b(key.encode('utf-8', 'backslashreplace'), digest_size=6).hexdigest()
                path = os.path.join(rdir, '%s.json' % h)
                with open(path, 'w') as f:
                    json.dump({'property': self.pid, 'key': key, 'what': v['what'], 'case': v['case']},
                              f, indent=1, default=str)
                print('VIOLATION property=%s replay=%s  # %s' % (self.pid, path, v['what'][:200]))
            groups = {}
            for v in self.violations:
                c = v['case'] if isinstance(v['case'], dict) else {}
                g = '%s %s' % (c.get('cfg', ''), c.get('selector', c.get('group', v['key'][:60])))
                groups.setdefault(g, []).append(v)
            for g, vs in sorted(groups.items(), key=lambda kv: -len(kv[1]))[:60]:
                print('  group %-50s %6d  e.g. %s' % (g, len(vs), vs[0]['what'][:150]))
            print('%s: %d violating cases (%d distinct keys) in %.1fs' %
                  (self.pid, len(self.violations), len(seen), wall))
            return 1
        print('%s: OK tier=%s states=%d transitions=%d impl_cases=%d traces=%d distinct_nontrivial=%d wall=%.1fs' % (
            self.pid, self.tier, cov['states'], cov['transitions'], cov['evaluations'],
            cov['traces_validated_against_impl'], cov['distinct_nontrivial'], wall))
        return 0


def load_known(pid=None):
    """known_findings.txt lines:
         open: property=<id> key=<key> :: <what fails>
         fixed: property=<id> <commit> <what failed>
    Only `open` entries suppress anything, and only the exact key."""
    out = []
    path = os.path.join(VERIF, 'known_findings.txt')
    if not os.path.exists(path):
        return out
    for line in open(path):
        line = line.rstrip('\n')
        if line.startswith('open: '):
            body = line[6:]
            head, _, what = body.partition(' :: ')
            parts = dict(p.split('=', 1) for p in head.split(' ', 1) if '=' in p) if False else None
            prop = head.split(' ', 1)[0].split('=', 1)[1]
            key = head.split(' ', 1)[1].split('=', 1)[1]
            if pid is None or prop == pid:
                out.append({'status': 'open', 'property': prop, 'key': key, 'what': what})
        elif line.startswith('fixed: '):
            body = line[7:]
            prop = body.split(' ', 1)[0].split('=', 1)[1]
            if pid is None or prop == pid:
                out.append({'status': 'fixed', 'property': prop, 'key': None, 'what': body})
    return out


def cps(s):
    """str -> list of code points (the spec's string representation)."""
    return [ord(c) for c in s]


def st(a):
    """list of code points -> str."""
    return ''.join(chr(c) for c in a)


def generic_replay(pid, path):
    """./check Cxx --replay <file>: re-run exactly the recorded case against the working tree when its shape is known
    (document + selector + expected ids; recorded select event), otherwise re-run the property's quick check."""
    import re
    import subprocess
    import warnings
    rec = json.load(open(path))
    case = rec.get('case') or {}
    print('replay of %s: %s' % (rec.get('property', pid), rec.get('what', '')[:300]))
    ev = case.get('event') if isinstance(case.get('event'), dict) else None
    d = case.get('doc') or (ev or {}).get('doc')
    css = case.get('selector') if isinstance(case.get('selector'), str) else None
    if ev and ev.get('css'):
        css = ev['css']
    if isinstance(d, dict) and 'parent' in d and css:
        warnings.simplefilter('ignore')
        sv, bs4 = import_repo()
        from . import dom
        container, nodes = dom.build(d, bs4)
        idmap = dom.ids_of(nodes)
        target = container
        nsmap = None
        if ev:
            if ev.get('target'):
                target = nodes[ev['target']]
            if ev.get('nsmap'):
                nsmap = {st(e['p']): st(e['u']) for e in ev['nsmap']}
        try:
            got = [idmap.get(id(t), -1) for t in sv.select(css, target, namespaces=nsmap)]
        except Exception as e:
            got = '%s: %s' % (type(e).__name__, str(e).split('\n')[0])
        exp = case.get('expected')
        if exp is None and case.get('spec_expected') is not None:
            exp = [int(x) for x in re.findall(r'-?\d+', str(case['spec_expected']))]
        print('selector %r -> %r ; specification: %r' % (css, got, exp))
        if exp is not None:
            ok = got == exp
            print('VIOLATION property=%s replay=%s' % (pid, path) if not ok else 'replay: the case now conforms')
            return 0 if ok else 1
    print('(no single-case replay for this kind of case: re-running the quick check)')
    r = subprocess.run([os.path.join(VERIF, 'check'), pid, '--tier', 'quick'])
    return r.returncode


class CallTimeout(BaseException):
    """raised inside a worker process when one implementation call runs far too long (never in threads)"""


def _on_alarm(signum, frame):
    raise CallTimeout()


def guard(fn, secs=20):
    """run fn() under a SIGALRM watchdog: a call into the implementation that does not return is reported by the caller
    as a finding ("did not terminate") instead of hanging the check.  Main thread of a (worker) process only."""
    import signal
    import threading
    if threading.current_thread() is not threading.main_thread():
        return fn()
    old = signal.signal(signal.SIGALRM, _on_alarm)
    signal.alarm(secs)
    try:
        return fn()
    finally:
        signal.alarm(0)
        signal.signal(signal.SIGALRM, old)
