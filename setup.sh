#!/bin/sh
# Offline setup: syntax-check every TLA+ module with SANY, byte-compile the harness.
set -e
cd "$(dirname "$0")"
mkdir -p evidence replays
cd spec
fail=0
for f in *.tla; do
  if ! tla-sany "$f" > /tmp/verif_sany.out 2>&1; then echo "SANY failed: $f"; tail -20 /tmp/verif_sany.out; fail=1; fi
done
rm -f /tmp/verif_sany.out
cd ..
/venv/bin/python -m compileall -q harness checks check >/dev/null
exit $fail
